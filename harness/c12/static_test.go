// The model's lookups (MRead) only READ the active configuration: that is why any number of them may
// run at once under the shared read lock (and the registration round on its snapshot with no lock at
// all).  This file checks that assumption on the source: it walks the functions reachable from
// ExecutionConfig.ProposerConfig of services/blockrelay/v1 and v2 and from Service.ProposerConfig of
// services/blockrelay/standard (calls by name within the package; go/ast only, no type information)
// and reports every statement that writes through the receiver, through a value derived from the
// receiver (range variables, locals, parameters given such values), or to a package-level variable.
package c12

import (
	"fmt"
	"go/ast"
	"go/parser"
	"go/token"
	"os"
	"path/filepath"
	"sort"
	"strings"
)

var scannedFuncs int

func repoDir() string {
	if d := os.Getenv("VERIF_REPO"); d != "" {
		return d
	}
	return "/repo"
}

type scanFunc struct {
	decl *ast.FuncDecl
	recv string
	// positions (receiver = 0, parameters from 1) that carry shared state
	tainted map[int]bool
}

func rootIdent(e ast.Expr) (*ast.Ident, bool) {
	derived := false
	for {
		switch x := e.(type) {
		case *ast.Ident:
			return x, derived
		case *ast.SelectorExpr:
			e, derived = x.X, true
		case *ast.IndexExpr:
			e, derived = x.X, true
		case *ast.SliceExpr:
			e, derived = x.X, true
		case *ast.StarExpr:
			e, derived = x.X, true
		case *ast.ParenExpr:
			e = x.X
		case *ast.UnaryExpr:
			if x.Op != token.AND {
				return nil, false
			}
			e = x.X
		case *ast.TypeAssertExpr:
			e = x.X
		default:
			return nil, false
		}
	}
}

func scanPackage(dir string, roots map[string]bool, fset *token.FileSet) ([]string, error) {
	pkgs, err := parser.ParseDir(fset, dir, func(fi os.FileInfo) bool { return !strings.HasSuffix(fi.Name(), "_test.go") }, 0)
	if err != nil {
		return nil, err
	}
	funcs := map[string]*scanFunc{} // by bare name (methods and functions share the space: conservative)
	globals := map[string]bool{}
	for _, pkg := range pkgs {
		for _, f := range pkg.Files {
			for _, d := range f.Decls {
				switch x := d.(type) {
				case *ast.FuncDecl:
					if x.Body == nil {
						continue
					}
					sf := &scanFunc{decl: x, tainted: map[int]bool{}}
					if x.Recv != nil && len(x.Recv.List) == 1 && len(x.Recv.List[0].Names) == 1 {
						sf.recv = x.Recv.List[0].Names[0].Name
					}
					funcs[x.Name.Name] = sf
				case *ast.GenDecl:
					if x.Tok == token.VAR {
						for _, sp := range x.Specs {
							for _, n := range sp.(*ast.ValueSpec).Names {
								globals[n.Name] = true
							}
						}
					}
				}
			}
		}
	}
	var findings []string
	seen := map[string]bool{}
	var work []string
	for r := range roots {
		if sf, ok := funcs[r]; ok {
			sf.tainted[0] = true
			work = append(work, r)
		}
	}
	sort.Strings(work)
	visited := map[string]string{}
	for len(work) > 0 {
		name := work[0]
		work = work[1:]
		sf := funcs[name]
		sig := fmt.Sprint(sf.tainted)
		if visited[name] == sig {
			continue
		}
		visited[name] = sig
		// names carrying shared state inside this function
		shared := map[string]bool{}
		if sf.tainted[0] && sf.recv != "" {
			shared[sf.recv] = true
		}
		pos := 1
		for _, fl := range sf.decl.Type.Params.List {
			for _, n := range fl.Names {
				if sf.tainted[pos] {
					shared[n.Name] = true
				}
				pos++
			}
			if len(fl.Names) == 0 {
				pos++
			}
		}
		locals := map[string]bool{} // names declared in the function: they hide package-level variables
		isGlobal := func(name string) bool { return globals[name] && !locals[name] }
		isShared := func(e ast.Expr) bool {
			id, _ := rootIdent(e)
			return id != nil && (shared[id.Name] || isGlobal(id.Name))
		}
		// a function that takes an exclusive lock of its own is taken to protect what it writes
		locksItself := false
		ast.Inspect(sf.decl.Body, func(n ast.Node) bool {
			if c, ok := n.(*ast.CallExpr); ok {
				if sel, ok := c.Fun.(*ast.SelectorExpr); ok && sel.Sel.Name == "Lock" && len(c.Args) == 0 {
					locksItself = true
				}
			}
			return true
		})
		report := func(n ast.Node, what string) {
			if locksItself {
				return
			}
			p := fset.Position(n.Pos())
			rel := filepath.Base(filepath.Dir(p.Filename)) + "/" + filepath.Base(p.Filename)
			msg := fmt.Sprintf("%s:%s %s", rel, sf.decl.Name.Name, what)
			if !seen[msg] {
				seen[msg] = true
				findings = append(findings, msg)
			}
		}
		written := func(n ast.Node, lhs ast.Expr) {
			id, derived := rootIdent(lhs)
			if id == nil || id.Name == "_" {
				return
			}
			if isGlobal(id.Name) && !shared[id.Name] {
				report(n, "writes package-level variable "+id.Name)
				return
			}
			if shared[id.Name] && derived {
				report(n, "writes through "+id.Name+" (shared configuration)")
			}
		}
		// two passes so that aliases defined after their first use in loops are known
		for pass := 0; pass < 2; pass++ {
			ast.Inspect(sf.decl.Body, func(n ast.Node) bool {
				switch x := n.(type) {
				case *ast.AssignStmt:
					if x.Tok == token.DEFINE {
						for i, l := range x.Lhs {
							id, ok := l.(*ast.Ident)
							if !ok {
								continue
							}
							locals[id.Name] = true
							if i < len(x.Rhs) && len(x.Lhs) == len(x.Rhs) {
								if _, derived := rootIdent(x.Rhs[i]); isShared(x.Rhs[i]) && derived {
									shared[id.Name] = true
								}
							} else if len(x.Rhs) == 1 && i == 0 {
								// v, ok := shared[k]  /  v, ok := shared.(T)
								if _, derived := rootIdent(x.Rhs[0]); isShared(x.Rhs[0]) && derived {
									shared[id.Name] = true
								}
							}
						}
					} else if pass == 1 {
						for _, l := range x.Lhs {
							written(x, l)
						}
					}
				case *ast.DeclStmt:
					if gd, ok := x.Decl.(*ast.GenDecl); ok && gd.Tok == token.VAR {
						for _, sp := range gd.Specs {
							for _, n := range sp.(*ast.ValueSpec).Names {
								locals[n.Name] = true
							}
						}
					}
				case *ast.IncDecStmt:
					if pass == 1 {
						written(x, x.X)
					}
				case *ast.RangeStmt:
					if x.Tok == token.DEFINE {
						for _, e := range []ast.Expr{x.Key, x.Value} {
							if id, ok := e.(*ast.Ident); ok && id != nil {
								locals[id.Name] = true
							}
						}
						if id, ok := x.Value.(*ast.Ident); ok && id != nil && isShared(x.X) {
							shared[id.Name] = true
						}
					}
				case *ast.CallExpr:
					if pass == 0 {
						return true
					}
					if id, ok := x.Fun.(*ast.Ident); ok && (id.Name == "delete" || id.Name == "clear") && len(x.Args) > 0 && isShared(x.Args[0]) {
						report(x, id.Name+" on shared configuration")
					}
					var callee string
					recvShared := false
					switch f := x.Fun.(type) {
					case *ast.Ident:
						callee = f.Name
					case *ast.SelectorExpr:
						callee = f.Sel.Name
						recvShared = isShared(f.X)
						if _, isFunc := funcs[callee]; !isFunc && recvShared {
							switch callee {
							case "Store", "LoadOrStore", "Swap", "CompareAndSwap", "Delete", "LoadAndDelete", "Add", "Set", "Reset", "Grow", "Write", "WriteString":
								// a method that changes its receiver, called on shared state (sync/atomic
								// and sync.Map are safe by themselves: reported all the same, the
								// lookup path has no such call today)
								report(x, "calls "+callee+" on shared configuration")
							}
						}
					}
					if cf, ok := funcs[callee]; ok {
						changed := false
						if recvShared && !cf.tainted[0] {
							cf.tainted[0], changed = true, true
						}
						for i, a := range x.Args {
							if isShared(a) && !cf.tainted[i+1] {
								if id, _ := rootIdent(a); id != nil && isGlobal(id.Name) && !shared[id.Name] {
									continue
								}
								cf.tainted[i+1], changed = true, true
							}
						}
						if changed || visited[callee] == "" {
							work = append(work, callee)
						}
					}
				}
				return true
			})
		}
	}
	scannedFuncs += len(visited)
	sort.Strings(findings)
	return findings, nil
}

// readerWrites lists the writes to shared state found on the lookup path.
func readerWrites() (findings []string, errText string) {
	scannedFuncs = 0
	fset := token.NewFileSet()
	base := filepath.Join(repoDir(), "services", "blockrelay")
	for _, pkg := range []string{"v1", "v2"} {
		f, err := scanPackage(filepath.Join(base, pkg), map[string]bool{"ProposerConfig": true}, fset)
		if err != nil {
			return nil, err.Error()
		}
		findings = append(findings, f...)
	}
	f, err := scanPackage(filepath.Join(base, "standard"), map[string]bool{"ProposerConfig": true}, fset)
	if err != nil {
		return nil, err.Error()
	}
	findings = append(findings, f...)
	if scannedFuncs == 0 {
		return nil, "no function found"
	}
	return findings, ""
}
