// gotrans translates a configured set of small, pure integer Go functions (and statement
// fragments of larger functions) of the repository into Gallina definitions over Z with the
// machine arithmetic written out (u64 / i64 wrap-around, truncated signed division), so that
// theorems about the hand-written models can be re-checked against what the source says NOW.
// go/ast only; anything outside the supported subset is a hard error (the check then reports the
// tie as broken rather than guessing).
package main

import (
	"bytes"
	"crypto/sha256"
	"encoding/json"
	"flag"
	"fmt"
	"go/ast"
	"go/parser"
	"go/printer"
	"go/token"
	"os"
	"path/filepath"
	"sort"
	"strings"
)

type EnvSpec struct {
	Param string   `json:"param,omitempty"` // replace the expression by this (new) parameter
	Var   string   `json:"var,omitempty"`   // an assignment to this expression is an assignment to this local variable
	Type  string   `json:"type,omitempty"`  // class of the parameter / result: u64 i64 time bool
	Fn    string   `json:"fn,omitempty"`    // replace the call by a call of this generated definition
	Pre   []string `json:"pre,omitempty"`   // "name:class" parameters passed before the Go arguments
	Post  []string `json:"post,omitempty"`  // "name:class" parameters passed after the Go arguments
}

type Target struct {
	Name    string             `json:"name"`
	Group   string             `json:"group"` // property whose tie file uses the definition; one generated file per group
	File    string             `json:"file"`
	Func    string             `json:"func"`
	Recv    string             `json:"recv,omitempty"`
	From    string             `json:"from,omitempty"` // fragment: first statement assigning this variable ...
	To      string             `json:"to,omitempty"`   // ... to the last statement (after From) assigning this one
	Outputs []string           `json:"outputs,omitempty"`
	Free    []string           `json:"free,omitempty"` // fragment: "name:class" of variables live on entry
	Env     map[string]EnvSpec `json:"env,omitempty"`
	Skip    []string           `json:"skip,omitempty"`   // statements whose text starts with one of these are ignored (logging, hashing, error plumbing)
	Option  bool               `json:"option,omitempty"` // fragment: a bare return inside it yields None, falling through yields Some outputs
	KeyedBy *KeyedBySpec       `json:"keyedby,omitempty"` // list of (field, string key): which string-keyed lookup feeds each field of a composite literal
	CallArg *CallArgSpec       `json:"callarg,omitempty"` // translate the index-th argument of the first call of this function (text of the callee) inside Func
	FuncLit string             `json:"funclit,omitempty"` // translate the function literal assigned to this variable inside Func (as if it were a function)
	Stmt    string             `json:"stmt,omitempty"`   // fragment = the first statement of Func (at any depth) whose text starts with this prefix
	Body    bool               `json:"body,omitempty"`   // fragment = the whole body of a function without result (Free = variables live on entry)
	Marks   map[string]string  `json:"marks,omitempty"`  // "f" -> v: a statement `go f(...)` / `f(...)` is the assignment v = true (v a Free bool): which side effects a path triggers
	IfCond  string             `json:"ifcond,omitempty"` // translate the condition of the (first) if statement of the function whose condition reads exactly so
	Doc     string             `json:"doc,omitempty"`
}

type CallArgSpec struct {
	Call      string `json:"call"`
	Index     int    `json:"index"`
	FieldName bool   `json:"fieldname,omitempty"` // the argument is a receiver field (s.f or *s.f): emit its name as a string (which field is passed)
}

// KeyedBySpec: in Func, the composite literal of type Composite has fields whose value is a local variable v;
// v is assigned from a call Via(..., "K") (v, err := Via(...)), or inside `if tmp, err := Via(..., "K"); ... { v = &tmp }`.
type KeyedBySpec struct {
	Composite string `json:"composite"`
	Via       string `json:"via"`
}

type Config struct {
	Types   map[string]string `json:"types"` // Go type text -> class
	Targets []Target          `json:"targets"`
}

type param struct{ name, class string }

type gen struct {
	fset    *token.FileSet
	cfg     *Config
	t       *Target
	recv    string            // receiver identifier
	fields  map[string]string // receiver field -> class
	forder  []string          // struct declaration order
	vars    map[string]string // locals and parameters -> class
	usedF   map[string]bool
	envP    map[string]string // env parameters used -> class
	envOrd  []string
	defs    map[string][]param // generated definitions so far -> parameter list
	retType string
	consts  map[string]string // package-level integer constants
	file    *ast.File
	repo    string
}

// failure of one target: recovered per group, so that a construct gotrans cannot translate (or a function
// that disappeared) breaks only the tie of the property that uses it
type failure struct{ msg string }

func fail(pos token.Position, f string, a ...any) {
	panic(failure{fmt.Sprintf("%s: %s", pos, fmt.Sprintf(f, a...))})
}

func (g *gen) text(n ast.Node) string {
	var b bytes.Buffer
	printer.Fprint(&b, g.fset, n)
	return b.String()
}

func (g *gen) class(typ ast.Expr) string {
	s := g.text(typ)
	if c, ok := g.cfg.Types[s]; ok {
		return c
	}
	fail(g.fset.Position(typ.Pos()), "type %s is not in the configured type table", s)
	return ""
}

func (g *gen) classOpt(typ ast.Expr) (string, bool) {
	c, ok := g.cfg.Types[g.text(typ)]
	return c, ok
}

// lhsName: the local variable an assignment target stands for (an identifier, or an expression
// mapped to a variable by the target's env)
func (g *gen) lhsName(e ast.Expr) (string, bool) {
	if id, ok := e.(*ast.Ident); ok {
		return id.Name, true
	}
	if spec, ok := g.t.Env[g.text(e)]; ok && spec.Var != "" {
		return spec.Var, true
	}
	return "", false
}

func (g *gen) addEnv(name, class string) {
	if _, ok := g.envP[name]; !ok {
		g.envP[name] = class
		g.envOrd = append(g.envOrd, name)
	}
}

func splitPC(s string) (string, string) {
	i := strings.Index(s, ":")
	return s[:i], s[i+1:]
}

// coerce an untyped constant to the class of its context
func unify(a, b string) string {
	if a == "untyped" {
		return b
	}
	return a
}

func wrapOp(class, e string) string {
	switch class {
	case "u64":
		return "(u64 " + e + ")"
	case "i64":
		return "(i64 " + e + ")"
	case "untyped", "time", "big":
		return e
	}
	return e
}

func (g *gen) expr(e ast.Expr) (string, string) {
	pos := g.fset.Position(e.Pos())
	// configured replacements first
	if spec, ok := g.t.Env[g.text(e)]; ok && spec.Param != "" {
		g.addEnv(spec.Param, spec.Type)
		return spec.Param, spec.Type
	}
	switch x := e.(type) {
	case *ast.ParenExpr:
		return g.expr(x.X)
	case *ast.BasicLit:
		if x.Kind != token.INT {
			fail(pos, "literal %s not supported", x.Value)
		}
		return strings.ReplaceAll(x.Value, "_", ""), "untyped"
	case *ast.Ident:
		if x.Name == "true" || x.Name == "false" {
			return x.Name, "bool"
		}
		if c, ok := g.vars[x.Name]; ok {
			return x.Name, c
		}
		if v, ok := g.consts[x.Name]; ok {
			return v, "untyped"
		}
		fail(pos, "unknown identifier %s", x.Name)
	case *ast.SelectorExpr:
		if id, ok := x.X.(*ast.Ident); ok {
			if id.Name == g.recv && g.recv != "" {
				c, ok := g.fields[x.Sel.Name]
				if !ok {
					fail(pos, "receiver field %s has no supported type", x.Sel.Name)
				}
				g.usedF[x.Sel.Name] = true
				return x.Sel.Name, c
			}
			if id.Name == "time" {
				switch x.Sel.Name {
				case "Nanosecond":
					return "1", "i64"
				case "Microsecond":
					return "1000", "i64"
				case "Millisecond":
					return "1000000", "i64"
				case "Second":
					return "1000000000", "i64"
				case "Minute":
					return "60000000000", "i64"
				}
			}
		}
		if id, ok := x.X.(*ast.Ident); ok {
			if v, ok := g.extConst(id.Name, x.Sel.Name); ok {
				return v, "untyped"
			}
		}
		fail(pos, "selector %s not supported", g.text(e))
	case *ast.UnaryExpr:
		a, c := g.expr(x.X)
		switch x.Op {
		case token.NOT:
			return "(negb " + a + ")", "bool"
		case token.SUB:
			return wrapOp(c, "(- "+a+")"), c
		}
		fail(pos, "unary %s not supported", x.Op)
	case *ast.BinaryExpr:
		if call, ok := x.X.(*ast.CallExpr); ok {
			if sel, ok := call.Fun.(*ast.SelectorExpr); ok && sel.Sel.Name == "Cmp" && len(call.Args) == 1 {
				if lit, ok := x.Y.(*ast.BasicLit); ok && lit.Value == "0" {
					l, lc := g.expr(sel.X)
					r, rc := g.expr(call.Args[0])
					if (lc != "big" && lc != "untyped") || (rc != "big" && rc != "untyped") {
						fail(pos, "Cmp on classes %s and %s", lc, rc)
					}
					op := map[token.Token]string{token.EQL: " =? ", token.GTR: " >? ", token.LSS: " <? ", token.GEQ: " >=? ", token.LEQ: " <=? "}[x.Op]
					if x.Op == token.NEQ {
						return "(negb (" + l + " =? " + r + "))", "bool"
					}
					if op == "" {
						fail(pos, "comparison %s of a Cmp result not supported", x.Op)
					}
					return "(" + l + op + r + ")", "bool"
				}
			}
		}
		a, ca := g.expr(x.X)
		b, cb := g.expr(x.Y)
		switch x.Op {
		case token.LAND:
			return "(" + a + " && " + b + ")", "bool"
		case token.LOR:
			return "(" + a + " || " + b + ")", "bool"
		}
		c := unify(ca, cb)
		if unify(cb, ca) != c {
			fail(pos, "operands of %s have classes %s and %s", x.Op, ca, cb)
		}
		switch x.Op {
		case token.ADD:
			return wrapOp(c, "("+a+" + "+b+")"), c
		case token.SUB:
			return wrapOp(c, "("+a+" - "+b+")"), c
		case token.MUL:
			return wrapOp(c, "("+a+" * "+b+")"), c
		case token.QUO:
			if c == "u64" {
				return "(" + a + " / " + b + ")", c
			}
			return wrapOp(c, "(Z.quot "+a+" "+b+")"), c
		case token.REM:
			if c == "u64" {
				return "(" + a + " mod " + b + ")", c
			}
			return "(Z.rem " + a + " " + b + ")", c
		case token.LSS:
			return "(" + a + " <? " + b + ")", "bool"
		case token.LEQ:
			return "(" + a + " <=? " + b + ")", "bool"
		case token.GTR:
			return "(" + a + " >? " + b + ")", "bool"
		case token.GEQ:
			return "(" + a + " >=? " + b + ")", "bool"
		case token.EQL:
			if c == "bool" {
				return "(Bool.eqb " + a + " " + b + ")", "bool"
			}
			return "(" + a + " =? " + b + ")", "bool"
		case token.NEQ:
			if c == "bool" {
				return "(negb (Bool.eqb " + a + " " + b + "))", "bool"
			}
			return "(negb (" + a + " =? " + b + "))", "bool"
		}
		fail(pos, "binary %s not supported", x.Op)
	case *ast.CallExpr:
		fn := g.text(x.Fun)
		// configured call replacement
		if spec, ok := g.t.Env[fn]; ok && spec.Fn != "" {
			ps, ok := g.defs[spec.Fn]
			if !ok {
				fail(pos, "%s is mapped to %s, which is not generated (yet)", fn, spec.Fn)
			}
			args := []string{}
			for _, p := range spec.Pre {
				n, c := splitPC(p)
				g.addEnv(n, c)
				args = append(args, n)
			}
			for _, a := range x.Args {
				s, _ := g.expr(a)
				args = append(args, s)
			}
			for _, p := range spec.Post {
				n, c := splitPC(p)
				g.addEnv(n, c)
				args = append(args, n)
			}
			if len(args) != len(ps) {
				fail(pos, "%s takes %d parameters, call supplies %d", spec.Fn, len(ps), len(args))
			}
			return "(" + spec.Fn + " " + strings.Join(args, " ") + ")", spec.Type
		}
		// math/big: new(big.Int).Op(a, b) is the exact integer operation; big.NewInt(k) the constant
		if fn == "big.NewInt" && len(x.Args) == 1 {
			a, _ := g.expr(x.Args[0])
			return a, "big"
		}
		if sel, ok := x.Fun.(*ast.SelectorExpr); ok && g.text(sel.X) == "new(big.Int)" && len(x.Args) == 2 {
			a, ca := g.expr(x.Args[0])
			b, cb := g.expr(x.Args[1])
			if (ca != "big" && ca != "untyped") || (cb != "big" && cb != "untyped") {
				fail(pos, "big.Int operation on classes %s and %s", ca, cb)
			}
			switch sel.Sel.Name {
			case "Add":
				return "(" + a + " + " + b + ")", "big"
			case "Sub":
				return "(" + a + " - " + b + ")", "big"
			case "Mul":
				return "(" + a + " * " + b + ")", "big"
			case "Div":
				return "(ediv " + a + " " + b + ")", "big"
			}
			fail(pos, "big.Int method %s not supported", sel.Sel.Name)
		}
		// conversion T(x), with the special form uintN(d.Seconds())
		if c, ok := g.cfg.Types[fn]; ok && len(x.Args) == 1 {
			if call, ok := x.Args[0].(*ast.CallExpr); ok {
				if sel, ok := call.Fun.(*ast.SelectorExpr); ok && sel.Sel.Name == "Seconds" && len(call.Args) == 0 {
					d, dc := g.expr(sel.X)
					if dc != "i64" || c != "u64" {
						fail(pos, "Seconds() only as uint64(<duration>.Seconds())")
					}
					return "(whole_seconds " + d + ")", "u64"
				}
			}
			a, ca := g.expr(x.Args[0])
			switch {
			case ca == c || ca == "untyped":
				return a, c
			case c == "u64" && ca == "i64":
				return "(u64 " + a + ")", c
			case c == "i64" && ca == "u64":
				return "(i64 " + a + ")", c
			}
			fail(pos, "conversion from %s to %s not supported", ca, c)
		}
		if sel, ok := x.Fun.(*ast.SelectorExpr); ok {
			// same-receiver method that is itself generated
			if id, ok := sel.X.(*ast.Ident); ok && id.Name == g.recv && g.recv != "" {
				for _, t := range g.cfg.Targets {
					if t.Func == sel.Sel.Name && t.Recv == g.t.Recv && t.File == g.t.File && t.From == "" {
						ps, ok := g.defs[t.Name]
						if !ok {
							fail(pos, "%s must be listed before %s", t.Name, g.t.Name)
						}
						nf := nFields[t.Name]
						if len(ps) < nf+len(x.Args) {
							fail(pos, "call of %s: parameter count", t.Name)
						}
						args := []string{}
						for _, p := range ps[:nf] {
							g.usedF[p.name] = true
							args = append(args, p.name)
						}
						for _, a := range x.Args {
							s, _ := g.expr(a)
							args = append(args, s)
						}
						for _, p := range ps[nf+len(x.Args):] {
							g.addEnv(p.name, p.class)
							args = append(args, p.name)
						}
						return "(" + t.Name + " " + strings.Join(args, " ") + ")", g.retOf(t.Name)
					}
				}
			}
			// time package and time.Time methods
			if id, ok := sel.X.(*ast.Ident); ok && id.Name == "time" {
				switch sel.Sel.Name {
				case "Now":
					g.addEnv("now", "time")
					return "now", "time"
				case "Since":
					a, _ := g.expr(x.Args[0])
					g.addEnv("now", "time")
					return "(sat64 (now - " + a + "))", "i64"
				}
			}
			if id, ok := sel.X.(*ast.Ident); ok && id.Name == "runtime" && sel.Sel.Name == "GOMAXPROCS" {
				g.addEnv("gomaxprocs", "i64")
				return "gomaxprocs", "i64"
			}
			recvS, rc := "", ""
			if rc == "" {
				recvS, rc = g.expr(sel.X)
			}
			if rc == "time" {
				switch sel.Sel.Name {
				case "Add":
					a, _ := g.expr(x.Args[0])
					return "(" + recvS + " + " + a + ")", "time"
				case "After":
					a, _ := g.expr(x.Args[0])
					return "(" + recvS + " >? " + a + ")", "bool"
				case "Before":
					a, _ := g.expr(x.Args[0])
					return "(" + recvS + " <? " + a + ")", "bool"
				case "Sub":
					a, _ := g.expr(x.Args[0])
					return "(sat64 (" + recvS + " - " + a + "))", "i64"
				}
			}
		}
		fail(pos, "call %s not supported", g.text(e))
	}
	fail(pos, "expression %s not supported", g.text(e))
	return "", ""
}

var retTypes = map[string]string{}
var nFields = map[string]int{}

func (g *gen) retOf(name string) string { return retTypes[name] }

// marks of the target being translated (call text -> marker variable), for assignedIn
var curMarks map[string]string
var curFset *token.FileSet

// markOf: the marker variable a `go f(...)` / `f(...)` statement stands for, if configured
func markOf(fset *token.FileSet, s ast.Stmt) (string, bool) {
	var call *ast.CallExpr
	switch x := s.(type) {
	case *ast.GoStmt:
		call = x.Call
	case *ast.ExprStmt:
		call, _ = x.X.(*ast.CallExpr)
	}
	if call == nil || curMarks == nil {
		return "", false
	}
	var b bytes.Buffer
	printer.Fprint(&b, fset, call.Fun)
	v, ok := curMarks[b.String()]
	return v, ok
}

func assignedIn(stmts []ast.Stmt, outer map[string]string) []string {
	seen := map[string]bool{}
	var out []string
	add := func(n string) {
		if _, ok := outer[n]; ok && !seen[n] {
			seen[n] = true
			out = append(out, n)
		}
	}
	var walk func(ss []ast.Stmt, declared map[string]bool)
	walk = func(ss []ast.Stmt, declared map[string]bool) {
		local := map[string]bool{}
		for k := range declared {
			local[k] = true
		}
		for _, s := range ss {
			if v, ok := markOf(curFset, s); ok {
				add(v)
				continue
			}
			switch x := s.(type) {
			case *ast.AssignStmt:
				for _, l := range x.Lhs {
					if id, ok := l.(*ast.Ident); ok {
						if x.Tok == token.DEFINE {
							local[id.Name] = true
						} else if !local[id.Name] {
							add(id.Name)
						}
					}
				}
			case *ast.IncDecStmt:
				if id, ok := x.X.(*ast.Ident); ok && !local[id.Name] {
					add(id.Name)
				}
			case *ast.IfStmt:
				walk(x.Body.List, local)
				if x.Else != nil {
					if b, ok := x.Else.(*ast.BlockStmt); ok {
						walk(b.List, local)
					} else {
						walk([]ast.Stmt{x.Else}, local)
					}
				}
			case *ast.BlockStmt:
				walk(x.List, local)
			}
		}
	}
	walk(stmts, map[string]bool{})
	return out
}

func alwaysReturns(ss []ast.Stmt) bool {
	if len(ss) == 0 {
		return false
	}
	switch x := ss[len(ss)-1].(type) {
	case *ast.ReturnStmt:
		return true
	case *ast.IfStmt:
		if x.Else == nil {
			return false
		}
		var els []ast.Stmt
		if b, ok := x.Else.(*ast.BlockStmt); ok {
			els = b.List
		} else {
			els = []ast.Stmt{x.Else}
		}
		return alwaysReturns(x.Body.List) && alwaysReturns(els)
	}
	return false
}

func containsReturn(ss []ast.Stmt) bool {
	found := false
	for _, s := range ss {
		ast.Inspect(s, func(n ast.Node) bool {
			if _, ok := n.(*ast.ReturnStmt); ok {
				found = true
			}
			return !found
		})
	}
	return found
}

func ind(n int) string { return strings.Repeat("  ", n) }

func (g *gen) copyVars() map[string]string {
	m := map[string]string{}
	for k, v := range g.vars {
		m[k] = v
	}
	return m
}

// stmts translates a statement list; final() yields the term that ends a path which falls off the list.
func (g *gen) stmts(ss []ast.Stmt, depth int, final func() string) string {
	if len(ss) == 0 {
		return final()
	}
	s, rest := ss[0], ss[1:]
	pos := g.fset.Position(s.Pos())
	stxt := g.text(s)
	for _, p := range g.t.Skip {
		if strings.HasPrefix(stxt, p) {
			return g.stmts(rest, depth, final)
		}
	}
	if v, ok := markOf(g.fset, s); ok {
		if g.vars[v] != "bool" {
			fail(pos, "marker %s must be a free bool variable", v)
		}
		return "let " + v + " := true in\n" + ind(depth) + g.stmts(rest, depth, final)
	}
	switch x := s.(type) {
	case *ast.ExprStmt:
		fail(pos, "expression statement %s not supported", stxt)
	case *ast.ReturnStmt:
		if len(x.Results) == 0 && g.t.From != "" && g.t.Option {
			return "None"
		}
		if len(x.Results) != 1 {
			fail(pos, "return with %d results not supported", len(x.Results))
		}
		if g.retType == "error" {
			// a function returning error is translated to a bool: true = nil (accepted)
			if id, ok := x.Results[0].(*ast.Ident); ok && id.Name == "nil" {
				return "true"
			}
			if _, ok := x.Results[0].(*ast.CallExpr); ok {
				return "false"
			}
			fail(pos, "error result %s not supported", g.text(x.Results[0]))
		}
		e, c := g.expr(x.Results[0])
		if c == "untyped" {
			c = g.retType
		}
		if c != g.retType && g.retType != "" {
			// conversion inserted by the declared result type
			if g.retType == "u64" && c == "i64" {
				e = "(u64 " + e + ")"
			}
		}
		return e
	case *ast.IncDecStmt:
		id, ok := x.X.(*ast.Ident)
		if !ok {
			fail(pos, "++/-- on %s not supported", g.text(x.X))
		}
		c := g.vars[id.Name]
		op := " + 1"
		if x.Tok == token.DEC {
			op = " - 1"
		}
		return "let " + id.Name + " := " + wrapOp(c, "("+id.Name+op+")") + " in\n" + ind(depth) + g.stmts(rest, depth, final)
	case *ast.AssignStmt:
		if len(x.Lhs) != 1 || len(x.Rhs) != 1 {
			fail(pos, "multiple assignment not supported")
		}
		lname, ok := g.lhsName(x.Lhs[0])
		if !ok {
			fail(pos, "assignment to %s not supported", g.text(x.Lhs[0]))
		}
		id := &ast.Ident{Name: lname}
		e, c := g.expr(x.Rhs[0])
		if _, isIdent := x.Lhs[0].(*ast.Ident); !isIdent && x.Tok == token.ASSIGN {
			if _, known := g.vars[lname]; !known {
				g.vars[lname] = c // first assignment to a mapped target declares the variable
			}
		}
		switch x.Tok {
		case token.DEFINE:
			if c == "untyped" {
				c = "i64"
			}
			g.vars[id.Name] = c
		case token.ASSIGN:
			if vc := g.vars[id.Name]; c == "untyped" {
				c = vc
			} else if vc != c {
				fail(pos, "assignment of class %s to %s of class %s", c, id.Name, vc)
			}
		case token.ADD_ASSIGN, token.SUB_ASSIGN, token.MUL_ASSIGN:
			vc := g.vars[id.Name]
			op := map[token.Token]string{token.ADD_ASSIGN: " + ", token.SUB_ASSIGN: " - ", token.MUL_ASSIGN: " * "}[x.Tok]
			e = wrapOp(vc, "("+id.Name+op+e+")")
		default:
			fail(pos, "assignment operator %s not supported", x.Tok)
		}
		return "let " + id.Name + " := " + e + " in\n" + ind(depth) + g.stmts(rest, depth, final)
	case *ast.IfStmt:
		if x.Init != nil {
			fail(pos, "if with init statement not supported")
		}
		c, cc := g.expr(x.Cond)
		if cc != "bool" {
			fail(pos, "condition of class %s", cc)
		}
		var els []ast.Stmt
		if x.Else != nil {
			if b, ok := x.Else.(*ast.BlockStmt); ok {
				els = b.List
			} else {
				els = []ast.Stmt{x.Else}
			}
		}
		thenRet, elseRet := containsReturn(x.Body.List), containsReturn(els)
		if !thenRet && !elseRet {
			// pure state update: thread the assigned variables through a tuple
			vs := assignedIn(append(append([]ast.Stmt{}, x.Body.List...), els...), g.vars)
			if len(vs) == 0 {
				return g.stmts(rest, depth, final)
			}
			tuple := vs[0]
			pat := vs[0]
			if len(vs) > 1 {
				tuple = "(" + strings.Join(vs, ", ") + ")"
				pat = "'" + tuple
			}
			saved := g.copyVars()
			a := g.stmts(x.Body.List, depth+2, func() string { return tuple })
			g.vars = g.copyVars()
			for k := range g.vars {
				if _, ok := saved[k]; !ok {
					delete(g.vars, k)
				}
			}
			b := g.stmts(els, depth+2, func() string { return tuple })
			g.vars = saved
			return "let " + pat + " :=\n" + ind(depth+1) + "if " + c + "\n" + ind(depth+1) + "then " + a + "\n" + ind(depth+1) + "else " + b + " in\n" + ind(depth) + g.stmts(rest, depth, final)
		}
		// some path returns: continue with the rest of the list inside the branches that fall through
		saved := g.copyVars()
		var a, b string
		if alwaysReturns(x.Body.List) {
			a = g.stmts(x.Body.List, depth+2, func() string { fail(pos, "internal: fell off a returning branch"); return "" })
		} else {
			a = g.stmts(append(append([]ast.Stmt{}, x.Body.List...), rest...), depth+2, final)
		}
		g.vars = saved
		saved = g.copyVars()
		if len(els) > 0 && alwaysReturns(els) {
			b = g.stmts(els, depth+2, func() string { fail(pos, "internal: fell off a returning branch"); return "" })
		} else {
			b = g.stmts(append(append([]ast.Stmt{}, els...), rest...), depth+2, final)
		}
		g.vars = saved
		return "if " + c + "\n" + ind(depth+1) + "then " + a + "\n" + ind(depth+1) + "else " + b
	}
	if sw, ok := s.(*ast.SwitchStmt); ok && sw.Init == nil {
		// a switch without fallthrough is the if / else-if chain of its cases, in order
		var chain ast.Stmt
		var last *ast.IfStmt
		var deflt []ast.Stmt
		hasDefault := false
		for _, c := range sw.Body.List {
			cc := c.(*ast.CaseClause)
			for _, st := range cc.Body {
				if br, ok := st.(*ast.BranchStmt); ok {
					fail(g.fset.Position(br.Pos()), "%s inside a switch case not supported", br.Tok)
				}
			}
			if cc.List == nil {
				deflt, hasDefault = cc.Body, true
				continue
			}
			var cond ast.Expr
			for _, e := range cc.List {
				var one ast.Expr = e
				if sw.Tag != nil {
					one = &ast.BinaryExpr{X: sw.Tag, Op: token.EQL, Y: e}
				}
				if cond == nil {
					cond = one
				} else {
					cond = &ast.BinaryExpr{X: cond, Op: token.LOR, Y: one}
				}
			}
			is := &ast.IfStmt{If: cc.Pos(), Cond: cond, Body: &ast.BlockStmt{List: cc.Body}}
			if last == nil {
				chain = is
			} else {
				last.Else = is
			}
			last = is
		}
		if last == nil {
			return g.stmts(append(append([]ast.Stmt{}, deflt...), rest...), depth, final)
		}
		if hasDefault {
			last.Else = &ast.BlockStmt{List: deflt}
		}
		return g.stmts(append([]ast.Stmt{chain}, rest...), depth, final)
	}
	fail(pos, "statement %T not supported: %s", s, g.text(s))
	return ""
}

func (g *gen) assigns(s ast.Stmt, v string) bool {
	switch x := s.(type) {
	case *ast.AssignStmt:
		for _, l := range x.Lhs {
			if n, ok := g.lhsName(l); ok && n == v {
				return true
			}
		}
	case *ast.IncDecStmt:
		if id, ok := x.X.(*ast.Ident); ok && id.Name == v {
			return true
		}
	case *ast.IfStmt:
		for _, b := range x.Body.List {
			if g.assigns(b, v) {
				return true
			}
		}
	}
	return false
}

// findFragment: the innermost statement list (function body, loop body, branch) that contains a
// statement assigning [from] directly
func (g *gen) findFragment(list []ast.Stmt, from string) []ast.Stmt {
	for _, s := range list {
		if as, ok := s.(*ast.AssignStmt); ok {
			for _, l := range as.Lhs {
				if n, ok := g.lhsName(l); ok && n == from {
					return list
				}
			}
		}
	}
	for _, s := range list {
		var inner [][]ast.Stmt
		switch x := s.(type) {
		case *ast.ForStmt:
			inner = append(inner, x.Body.List)
		case *ast.RangeStmt:
			inner = append(inner, x.Body.List)
		case *ast.BlockStmt:
			inner = append(inner, x.List)
		case *ast.IfStmt:
			inner = append(inner, x.Body.List)
			if b, ok := x.Else.(*ast.BlockStmt); ok {
				inner = append(inner, b.List)
			}
		case *ast.GoStmt:
			if fl, ok := x.Call.Fun.(*ast.FuncLit); ok {
				inner = append(inner, fl.Body.List)
			}
		}
		for _, l := range inner {
			if r := g.findFragment(l, from); r != nil {
				return r
			}
		}
	}
	return nil
}

// extConst: the value of an integer constant (literal or iota block) of an imported package of a module that
// the repository's go.mod requires, read from the module cache; pkg is the import's name in the current file
var extCache = map[string]map[string]string{}

func (g *gen) extConst(pkg, name string) (string, bool) {
	if g.file == nil {
		return "", false
	}
	ipath := ""
	for _, im := range g.file.Imports {
		p := strings.Trim(im.Path.Value, "\"")
		n := filepath.Base(p)
		if im.Name != nil {
			n = im.Name.Name
		}
		if n == pkg {
			ipath = p
		}
	}
	if ipath == "" {
		return "", false
	}
	if m, ok := extCache[ipath]; ok {
		v, ok := m[name]
		return v, ok
	}
	m := map[string]string{}
	extCache[ipath] = m
	gomod, err := os.ReadFile(filepath.Join(g.repo, "go.mod"))
	if err != nil {
		return "", false
	}
	dir := ""
	for _, l := range strings.Split(string(gomod), "\n") {
		f := strings.Fields(l)
		if len(f) >= 2 && f[0] == "require" {
			f = f[1:]
		}
		if len(f) >= 2 && strings.HasPrefix(f[1], "v") && (ipath == f[0] || strings.HasPrefix(ipath, f[0]+"/")) {
			cache := os.Getenv("GOMODCACHE")
			if cache == "" {
				home, _ := os.UserHomeDir()
				cache = filepath.Join(home, "go", "pkg", "mod")
			}
			dir = filepath.Join(cache, f[0]+"@"+f[1], strings.TrimPrefix(ipath, f[0]))
		}
	}
	if dir == "" {
		return "", false
	}
	ents, _ := os.ReadDir(dir)
	for _, e := range ents {
		if !strings.HasSuffix(e.Name(), ".go") || strings.HasSuffix(e.Name(), "_test.go") {
			continue
		}
		pf, err := parser.ParseFile(token.NewFileSet(), filepath.Join(dir, e.Name()), nil, 0)
		if err != nil {
			continue
		}
		for _, d := range pf.Decls {
			gd, ok := d.(*ast.GenDecl)
			if !ok || gd.Tok != token.CONST {
				continue
			}
			isIota := false
			for i, sp := range gd.Specs {
				vs := sp.(*ast.ValueSpec)
				if len(vs.Names) != 1 {
					isIota = false
					continue
				}
				if len(vs.Values) == 1 {
					isIota = false
					if id, ok := vs.Values[0].(*ast.Ident); ok && id.Name == "iota" {
						isIota = true
					} else if lit, ok := vs.Values[0].(*ast.BasicLit); ok && lit.Kind == token.INT {
						m[vs.Names[0].Name] = strings.ReplaceAll(lit.Value, "_", "")
						continue
					} else {
						continue
					}
				} else if len(vs.Values) != 0 {
					isIota = false
					continue
				}
				if isIota {
					m[vs.Names[0].Name] = fmt.Sprint(i)
				}
			}
		}
	}
	v, ok := m[name]
	return v, ok
}

// reassigned: some function of the package assigns (or takes the address of, or ++/--) the package-level name
func reassigned(files []*ast.File, name string) bool {
	found := false
	for _, f := range files {
		ast.Inspect(f, func(n ast.Node) bool {
			switch x := n.(type) {
			case *ast.AssignStmt:
				if x.Tok != token.DEFINE {
					for _, l := range x.Lhs {
						if id, ok := l.(*ast.Ident); ok && id.Name == name {
							found = true
						}
					}
				}
			case *ast.IncDecStmt:
				if id, ok := x.X.(*ast.Ident); ok && id.Name == name {
					found = true
				}
			case *ast.UnaryExpr:
				if id, ok := x.X.(*ast.Ident); ok && x.Op == token.AND && id.Name == name {
					found = true
				}
			}
			return !found
		})
	}
	return found
}

func main() {
	repo := flag.String("repo", "/repo", "repository root")
	cfgPath := flag.String("config", "targets.json", "targets")
	outDir := flag.String("outdir", ".", "directory for the generated Pure_<group>.v files")
	statusPath := flag.String("status", "", "write the per-group status (ok / failure text) to this JSON file")
	flag.Parse()
	raw, err := os.ReadFile(*cfgPath)
	if err != nil {
		fmt.Fprintln(os.Stderr, err)
		os.Exit(2)
	}
	var cfg Config
	if err := json.Unmarshal(raw, &cfg); err != nil {
		fmt.Fprintln(os.Stderr, "gotrans: config:", err)
		os.Exit(2)
	}
	fset := token.NewFileSet()
	files := map[string]*ast.File{}
	pkgFiles := map[string][]*ast.File{}
	header := "(* GENERATED by gotrans from the repository's current source; do not edit.\n   One definition per configured Go function / statement fragment / if condition of group %s;\n   machine arithmetic explicit (u64, i64, sat64, ediv, whole_seconds from Lib/GoInt.v). *)\nFrom Coq Require Import ZArith Bool String.\nFrom Verif Require Import Lib.GoInt%s.\nOpen Scope Z_scope.\n\n"
	gb := map[string]*strings.Builder{}   // group -> body
	gdeps := map[string]map[string]bool{} // group -> groups whose definitions it calls
	gerr := map[string]string{}           // group -> first failure
	defGroup := map[string]string{}
	var groups []string
	defs := map[string][]param{}
	for ti := range cfg.Targets {
		t := &cfg.Targets[ti]
		if t.Group == "" {
			t.Group = "misc"
		}
		if _, ok := gb[t.Group]; !ok {
			gb[t.Group] = &strings.Builder{}
			gdeps[t.Group] = map[string]bool{}
			groups = append(groups, t.Group)
		}
		if gerr[t.Group] != "" {
			continue // the group's file is already unusable
		}
		func() {
			defer func() {
				if r := recover(); r != nil {
					if f, ok := r.(failure); ok {
						gerr[t.Group] = t.Name + ": " + f.msg
						return
					}
					panic(r)
				}
			}()
			b := gb[t.Group]
			path := filepath.Join(*repo, t.File)
			f, ok := files[path]
			if !ok {
				f, err = parser.ParseFile(fset, path, nil, parser.ParseComments)
				if err != nil {
					panic(failure{err.Error()})
				}
				files[path] = f
			}
			dir := filepath.Dir(path)
			if _, ok := pkgFiles[dir]; !ok {
				ents, _ := os.ReadDir(dir)
				for _, e := range ents {
					if strings.HasSuffix(e.Name(), ".go") && !strings.HasSuffix(e.Name(), "_test.go") {
						pf, err := parser.ParseFile(fset, filepath.Join(dir, e.Name()), nil, 0)
						if err == nil {
							pkgFiles[dir] = append(pkgFiles[dir], pf)
						}
					}
				}
			}
			var fd *ast.FuncDecl
			for _, d := range f.Decls {
				if x, ok := d.(*ast.FuncDecl); ok && x.Name.Name == t.Func {
					rt := ""
					if x.Recv != nil && len(x.Recv.List) == 1 {
						rt = strings.TrimPrefix((&gen{fset: fset}).text(x.Recv.List[0].Type), "*")
					}
					if rt == t.Recv {
						fd = x
					}
				}
			}
			if fd == nil {
				panic(failure{fmt.Sprintf("%s: function %s (receiver %q) not found", t.File, t.Func, t.Recv)})
			}
			if t.FuncLit != "" {
				var fl *ast.FuncLit
				ast.Inspect(fd.Body, func(n ast.Node) bool {
					if as, ok := n.(*ast.AssignStmt); ok && fl == nil && len(as.Lhs) == 1 && len(as.Rhs) == 1 {
						if id, ok := as.Lhs[0].(*ast.Ident); ok && id.Name == t.FuncLit {
							fl, _ = as.Rhs[0].(*ast.FuncLit)
						}
					}
					return fl == nil
				})
				if fl == nil {
					panic(failure{fmt.Sprintf("%s: no function literal assigned to %s in %s", t.File, t.FuncLit, t.Func)})
				}
				fd = &ast.FuncDecl{Name: &ast.Ident{Name: t.Func + "." + t.FuncLit, NamePos: fl.Pos()}, Type: fl.Type, Body: fl.Body}
			}
			if t.KeyedBy != nil {
				tx := (&gen{fset: fset}).text
				keyOfCall := func(e ast.Expr) (string, bool) {
					ce, ok := e.(*ast.CallExpr)
					if !ok || tx(ce.Fun) != t.KeyedBy.Via {
						return "", false
					}
					for _, a := range ce.Args {
						if lit, ok := a.(*ast.BasicLit); ok && lit.Kind == token.STRING {
							return strings.Trim(lit.Value, "\""), true
						}
					}
					return "", false
				}
				varKey := map[string]string{}
				ast.Inspect(fd.Body, func(n ast.Node) bool {
					switch x := n.(type) {
					case *ast.AssignStmt:
						if len(x.Rhs) == 1 && len(x.Lhs) >= 1 {
							if k, ok := keyOfCall(x.Rhs[0]); ok {
								if id, ok := x.Lhs[0].(*ast.Ident); ok {
									if _, dup := varKey[id.Name]; !dup {
										varKey[id.Name] = k
									}
								}
							}
						}
					case *ast.IfStmt:
						if as, ok := x.Init.(*ast.AssignStmt); ok && len(as.Rhs) == 1 && len(as.Lhs) >= 1 {
							if k, ok := keyOfCall(as.Rhs[0]); ok {
								tmp, _ := as.Lhs[0].(*ast.Ident)
								for _, st := range x.Body.List {
									if a2, ok := st.(*ast.AssignStmt); ok && len(a2.Lhs) == 1 && len(a2.Rhs) == 1 && tmp != nil {
										if id, ok := a2.Lhs[0].(*ast.Ident); ok && (tx(a2.Rhs[0]) == "&"+tmp.Name || tx(a2.Rhs[0]) == tmp.Name) {
											varKey[id.Name] = k
										}
									}
								}
							}
						}
					}
					return true
				})
				var pairs []string
				ast.Inspect(fd.Body, func(n ast.Node) bool {
					cl, ok := n.(*ast.CompositeLit)
					if !ok || cl.Type == nil || tx(cl.Type) != t.KeyedBy.Composite {
						return true
					}
					for _, el := range cl.Elts {
						kv, ok := el.(*ast.KeyValueExpr)
						if !ok {
							continue
						}
						if id, ok := kv.Value.(*ast.Ident); ok {
							if k, ok := varKey[id.Name]; ok {
								pairs = append(pairs, fmt.Sprintf("(\"%s\", \"%s\")%%string", tx(kv.Key), k))
							}
						}
					}
					return false
				})
				if len(pairs) == 0 {
					panic(failure{fmt.Sprintf("%s: no %s literal with fields fed by %s in %s", t.File, t.KeyedBy.Composite, t.KeyedBy.Via, t.Func)})
				}
				sort.Strings(pairs)
				b := gb[t.Group]
				fmt.Fprintf(b, "(* %s — %s %s: fields of the %s literal and the string key of the %s call that feeds each (sorted) *)\n", t.Name, t.File, t.Func, t.KeyedBy.Composite, t.KeyedBy.Via)
				fmt.Fprintf(b, "Definition %s : list (string * string) :=\n  (%s :: nil)%%list.\n\n", t.Name, strings.Join(pairs, " ::\n   "))
				defs[t.Name] = nil
				return
			}
			curMarks = t.Marks
			curFset = fset
			g := &gen{fset: fset, cfg: &cfg, t: t, fields: map[string]string{}, vars: map[string]string{}, usedF: map[string]bool{}, envP: map[string]string{}, defs: defs, file: f, repo: *repo}
			if fd.Recv != nil && len(fd.Recv.List[0].Names) == 1 && t.FuncLit == "" {
				g.recv = fd.Recv.List[0].Names[0].Name
			}
			g.consts = map[string]string{}
			for _, pf := range pkgFiles[dir] {
				for _, d := range pf.Decls {
					gd, ok := d.(*ast.GenDecl)
					if !ok || (gd.Tok != token.CONST && gd.Tok != token.VAR) {
						continue
					}
					for _, sp := range gd.Specs {
						vs, ok := sp.(*ast.ValueSpec)
						if !ok || len(vs.Names) != len(vs.Values) {
							continue
						}
						for i, n := range vs.Names {
							v := vs.Values[i]
							if gd.Tok == token.VAR {
								// a package-level `var x = T(literal)` that no non-test file of the package assigns is a constant
								call, ok := v.(*ast.CallExpr)
								if !ok || len(call.Args) != 1 || reassigned(pkgFiles[dir], n.Name) {
									continue
								}
								if _, ok := cfg.Types[g.text(call.Fun)]; !ok {
									continue
								}
								v = call.Args[0]
							}
							if lit, ok := v.(*ast.BasicLit); ok && lit.Kind == token.INT {
								g.consts[n.Name] = strings.ReplaceAll(lit.Value, "_", "")
							}
						}
					}
				}
			}
			// receiver struct fields with a supported type
			if t.Recv != "" {
				for _, pf := range pkgFiles[dir] {
					for _, d := range pf.Decls {
						gd, ok := d.(*ast.GenDecl)
						if !ok {
							continue
						}
						for _, sp := range gd.Specs {
							ts, ok := sp.(*ast.TypeSpec)
							if !ok || ts.Name.Name != t.Recv {
								continue
							}
							st, ok := ts.Type.(*ast.StructType)
							if !ok {
								continue
							}
							for _, fl := range st.Fields.List {
								c, ok := cfg.Types[g.text(fl.Type)]
								if !ok {
									continue
								}
								for _, n := range fl.Names {
									g.fields[n.Name] = c
									g.forder = append(g.forder, n.Name)
								}
							}
						}
					}
				}
			}
			var fparams []param
			body := fd.Body.List
			if t.Stmt != "" {
				var found ast.Stmt
				ast.Inspect(fd.Body, func(n ast.Node) bool {
					if st, ok := n.(ast.Stmt); ok && found == nil {
						if _, isBlock := st.(*ast.BlockStmt); !isBlock && strings.HasPrefix(g.text(st), t.Stmt) {
							found = st
						}
					}
					return found == nil
				})
				if found == nil {
					fail(fset.Position(fd.Pos()), "no statement starting with %q in %s", t.Stmt, t.Func)
				}
				body = []ast.Stmt{found}
				t.Body = true
			}
			if t.Body {
				for _, fr := range t.Free {
					n, c := splitPC(fr)
					g.vars[n] = c
					fparams = append(fparams, param{n, c})
				}
			} else if t.From == "" {
				for _, p := range fd.Type.Params.List {
					c, ok := g.classOpt(p.Type)
					if !ok {
						continue // usable only through the env mappings of the target
					}
					for _, n := range p.Names {
						if n.Name == "_" {
							continue
						}
						g.vars[n.Name] = c
						fparams = append(fparams, param{n.Name, c})
					}
				}
				if t.IfCond == "" && t.CallArg == nil {
					if fd.Type.Results == nil || len(fd.Type.Results.List) != 1 {
						fail(fset.Position(fd.Pos()), "exactly one result expected")
					}
					g.retType = g.class(fd.Type.Results.List[0].Type)
				}
			} else {
				if fb := g.findFragment(body, t.From); fb != nil {
					body = fb
				}
				lo, hi := -1, -1
				for i, s := range body {
					if lo < 0 && g.assigns(s, t.From) {
						lo = i
					}
					if lo >= 0 && g.assigns(s, t.To) {
						hi = i
					}
				}
				if lo < 0 || hi < lo {
					fail(fset.Position(fd.Pos()), "fragment %s..%s not found", t.From, t.To)
				}
				body = body[lo : hi+1]
				for _, fr := range t.Free {
					n, c := splitPC(fr)
					g.vars[n] = c
					fparams = append(fparams, param{n, c})
				}
			}
			var term string
			if t.IfCond != "" || t.CallArg != nil {
				var found ast.Expr
				ast.Inspect(fd.Body, func(n ast.Node) bool {
					if is, ok := n.(*ast.IfStmt); ok && found == nil && t.IfCond != "" && g.text(is.Cond) == t.IfCond {
						found = is.Cond
					}
					if ce, ok := n.(*ast.CallExpr); ok && found == nil && t.CallArg != nil && g.text(ce.Fun) == t.CallArg.Call && t.CallArg.Index < len(ce.Args) {
						found = ce.Args[t.CallArg.Index]
					}
					return found == nil
				})
				if found == nil && t.CallArg != nil {
					fail(fset.Position(fd.Pos()), "no call of %s with an argument %d in %s", t.CallArg.Call, t.CallArg.Index, t.Func)
				}
				if found == nil {
					fail(fset.Position(fd.Pos()), "no if statement with condition %q in %s", t.IfCond, t.Func)
				}
				fparams = nil
				g.vars = map[string]string{}
				for _, fr := range t.Free {
					n, c := splitPC(fr)
					g.vars[n] = c
					fparams = append(fparams, param{n, c})
				}
				var e, c string
				if t.CallArg != nil && t.CallArg.FieldName {
					x := found
					if st, ok := x.(*ast.StarExpr); ok {
						x = st.X
					}
					sel, ok := x.(*ast.SelectorExpr)
					if id, ok2 := sel.X.(*ast.Ident); !ok || !ok2 || id.Name != g.recv || g.recv == "" {
						fail(fset.Position(found.Pos()), "argument %s is not a receiver field", g.text(found))
					}
					e, c = "\""+sel.Sel.Name+"\"%string", "string"
				} else {
					e, c = g.expr(found)
				}
				if c != "bool" && t.CallArg == nil {
					fail(fset.Position(found.Pos()), "condition of class %s", c)
				}
				term = e
				retTypes[t.Name] = c
				body = []ast.Stmt{&ast.ExprStmt{X: found}}
			} else if t.From == "" && !t.Body {
				term = g.stmts(body, 1, func() string {
					fail(fset.Position(fd.End()), "control reaches the end of %s without a return", t.Func)
					return ""
				})
				retTypes[t.Name] = g.retType
			} else {
				term = g.stmts(body, 1, func() string {
					for _, o := range t.Outputs {
						if _, ok := g.vars[o]; !ok {
							fail(fset.Position(fd.Pos()), "output %s is not defined by the fragment", o)
						}
					}
					out := "(" + strings.Join(t.Outputs, ", ") + ")"
					if len(t.Outputs) == 1 {
						out = t.Outputs[0]
					}
					if t.Option {
						return "Some " + out
					}
					return out
				})
			}
			var ps []param
			for _, fn := range g.forder {
				if g.usedF[fn] {
					ps = append(ps, param{fn, g.fields[fn]})
				}
			}
			nFields[t.Name] = len(ps)
			ps = append(ps, fparams...)
			// environment parameters in name order (not in order of first use, which a harmless rewrite changes)
			envNames := append([]string{}, g.envOrd...)
			sort.Strings(envNames)
			for _, n := range envNames {
				ps = append(ps, param{n, g.envP[n]})
			}
			// parameters must be distinct
			seen := map[string]bool{}
			for _, p := range ps {
				if seen[p.name] {
					fail(fset.Position(fd.Pos()), "parameter name %s used twice in %s", p.name, t.Name)
				}
				seen[p.name] = true
			}
			defs[t.Name] = ps
			var src bytes.Buffer
			if t.CallArg != nil {
				fmt.Fprintf(&src, "argument %d of %s(...): ", t.CallArg.Index, t.CallArg.Call)
				printer.Fprint(&src, fset, body[0].(*ast.ExprStmt).X)
			} else if t.IfCond != "" {
				src.WriteString("if " + t.IfCond + " { ... }")
			} else if t.From == "" && !t.Body {
				printer.Fprint(&src, fset, fd)
			} else {
				for _, s := range body {
					printer.Fprint(&src, fset, s)
					src.WriteString("\n")
				}
			}
			h := sha256.Sum256(src.Bytes())
			fmt.Fprintf(b, "(* %s — %s %s", t.Name, t.File, t.Func)
			if t.From != "" {
				fmt.Fprintf(b, " (statements %s .. %s)", t.From, t.To)
			}
			if t.Stmt != "" {
				fmt.Fprintf(b, " (the statement starting %q)", t.Stmt)
			} else if t.Body {
				fmt.Fprintf(b, " (whole body)")
			}
			fmt.Fprintf(b, "; source sha256 %x\n", h[:8])
			for _, l := range strings.Split(strings.TrimRight(src.String(), "\n"), "\n") {
				b.WriteString("     " + strings.ReplaceAll(strings.ReplaceAll(l, "(*", "( *"), "*)", "* )") + "\n")
			}
			names := []string{}
			for _, p := range ps {
				names = append(names, fmt.Sprintf("(%s : %s)", p.name, map[string]string{"bool": "bool"}[p.class]+map[string]string{"u64": "Z", "i64": "Z", "time": "Z", "big": "Z"}[p.class]))
			}
			cls := []string{}
			for _, p := range ps {
				cls = append(cls, p.name+":"+p.class)
			}
			fmt.Fprintf(b, "   parameter classes: %s *)\n", strings.Join(cls, " "))
			fmt.Fprintf(b, "Definition %s %s :=\n  %s.\n\n", t.Name, strings.Join(names, " "), term)
			defGroup[t.Name] = t.Group
			for n, g := range defGroup {
				if g != t.Group && strings.Contains(term, "("+n+" ") {
					gdeps[t.Group][g] = true
				}
			}
		}()
	}
	// a group that uses definitions of a failed group is unusable too
	for changed := true; changed; {
		changed = false
		for _, g := range groups {
			if gerr[g] != "" {
				continue
			}
			for d := range gdeps[g] {
				if gerr[d] != "" {
					gerr[g] = "uses group " + d + ", which failed: " + gerr[d]
					changed = true
				}
			}
		}
	}
	status := map[string]string{}
	ok := 0
	for _, g := range groups {
		imports := ""
		var ds []string
		for d := range gdeps[g] {
			ds = append(ds, d)
		}
		sort.Strings(ds)
		for _, d := range ds {
			imports += " Gen.Pure_" + d
		}
		text := fmt.Sprintf(header, g, imports) + gb[g].String()
		if gerr[g] != "" {
			status[g] = gerr[g]
			text = "(* gotrans could not translate group " + g + " from the current source: " + strings.ReplaceAll(gerr[g], "*)", "* )") + " *)\n"
			fmt.Printf("gotrans: group %s FAILED: %s\n", g, gerr[g])
		} else {
			status[g] = "ok"
			ok++
		}
		path := filepath.Join(*outDir, "Pure_"+g+".v")
		if old, err := os.ReadFile(path); err == nil && string(old) == text {
			continue // keep the timestamp: no needless recompilation
		}
		if err := os.WriteFile(path, []byte(text), 0o644); err != nil {
			fmt.Fprintln(os.Stderr, err)
			os.Exit(2)
		}
	}
	if *statusPath != "" {
		js, _ := json.MarshalIndent(status, "", " ")
		_ = os.WriteFile(*statusPath, js, 0o644)
	}
	fmt.Printf("gotrans: %d definitions in %d groups (%d ok)\n", len(defs), len(groups), ok)
}
