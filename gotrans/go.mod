module verifgotrans

go 1.26.8
