// strtrans transcribes small recursive Go functions over strings (the five hierarchical
// configuration lookups of vouch's util package) into Gallina, from the repository's current
// source, so that the theorems about the hand-written model can be re-checked against what the
// source says NOW.  go/ast only; no type checker, no dependencies.
//
// Subset (anything else is a hard error: the check then reports the tie as broken, it never guesses):
//
//	func F(p1 string, ..., pn string) T            T one of string bool int int64 time.Duration zerolog.Level []string
//	statements   if [x := e;] cond { block } [else { block }]      every block ends in a return on all of its paths
//	             x := e                                            a new name (no shadowing, no assignment)
//	             return e      return F(e1, ..., en)               (the only place where F may call itself)
//	expressions  "literal"  123  -e  identifiers  (e)  !e  e && e  e || e
//	             e == e  e != e  < <= > >= (integers)   e == nil  e != nil (a []string)
//	             e + e (strings)   len(e)   e[lo:hi]  e[:hi]  e[lo:]
//	             fmt.Sprintf("...%s...", strings...)               -> String.append
//	             strings.LastIndex(s, sep)                         -> GoStr.last_index
//	             viper.GetString/GetBool/GetInt/GetInt64/GetDuration/GetStringSlice/IsSet(key)
//	                                                               -> an oracle parameter of the definition
//	             g(e1, ..., en)  g another function of the package -> an oracle parameter of the definition
//
// Strings are Coq strings, integers Z, a []string is option (list string) (None = nil).  Every
// definition takes its oracles (sorted by name), an explicit fuel, and the Go parameters, and
// returns GoStr.result T: Ok v, Panic (slice bounds out of range) or OutOfFuel.
package main

import (
	"bytes"
	"encoding/json"
	"flag"
	"fmt"
	"go/ast"
	"go/parser"
	"go/token"
	"os"
	"path/filepath"
	"sort"
	"strconv"
	"strings"
)

type Target struct {
	Name string `json:"name"` // name of the generated definition (suffix _fuel is added)
	File string `json:"file"`
	Func string `json:"func"`
}

type Config struct {
	Out     string   `json:"out"`
	Targets []Target `json:"targets"`
}

type typ int

const (
	tString typ = iota
	tInt
	tBool
	tSlice
	tNil
)

func (t typ) coq() string {
	switch t {
	case tString:
		return "string"
	case tInt:
		return "Z"
	case tBool:
		return "bool"
	case tSlice:
		return "option (list string)"
	}
	return "?"
}

func (t typ) String() string {
	return [...]string{"string", "integer", "bool", "[]string", "nil"}[t]
}

// result types and parameter types by their source text
var goTypes = map[string]typ{
	"string":        tString,
	"bool":          tBool,
	"int":           tInt,
	"int64":         tInt,
	"time.Duration": tInt,
	"zerolog.Level": tInt,
	"[]string":      tSlice,
}

// the viper accessors: key string in, value out
var viperFns = map[string]typ{
	"GetString":      tString,
	"GetBool":        tBool,
	"GetInt":         tInt,
	"GetInt64":       tInt,
	"GetDuration":    tInt,
	"GetStringSlice": tSlice,
	"IsSet":          tBool,
}

type oracle struct {
	name string
	args []typ
	res  typ
}

func (o oracle) coqType() string {
	var b strings.Builder
	for _, a := range o.args {
		b.WriteString(a.coq() + " -> ")
	}
	b.WriteString(o.res.coq())
	return b.String()
}

type transErr struct{ msg string }

type gen struct {
	fset     *token.FileSet
	imports  map[string]string        // local package name -> import path (of the file)
	pkgFns   map[string]*ast.FuncDecl // functions of the package (all files of the directory)
	fn       *ast.FuncDecl
	self     string
	nparams  int
	res      typ
	env      map[string]typ  // Go variables in scope
	declared map[string]bool // every name declared anywhere in the function: none may be declared twice
	oracles  map[string]oracle
	tmp      int
}

func (g *gen) fail(n ast.Node, format string, a ...any) {
	pos := ""
	if n != nil {
		p := g.fset.Position(n.Pos())
		pos = fmt.Sprintf("%s:%d: ", filepath.Base(p.Filename), p.Line)
	}
	panic(transErr{pos + fmt.Sprintf(format, a...)})
}

func typeText(e ast.Expr) string {
	switch x := e.(type) {
	case *ast.Ident:
		return x.Name
	case *ast.SelectorExpr:
		return typeText(x.X) + "." + x.Sel.Name
	case *ast.ArrayType:
		if x.Len == nil {
			return "[]" + typeText(x.Elt)
		}
	case *ast.StarExpr:
		return "*" + typeText(x.X)
	}
	return "?"
}

func (g *gen) goType(e ast.Expr) typ {
	t, ok := goTypes[typeText(e)]
	if !ok {
		g.fail(e, "type %s is outside the subset", typeText(e))
	}
	return t
}

func coqString(g *gen, n ast.Node, s string) string {
	var b strings.Builder
	b.WriteByte('"')
	for i := 0; i < len(s); i++ {
		c := s[i]
		if c < 0x20 || c > 0x7e {
			g.fail(n, "string literal with a byte outside printable ASCII")
		}
		if c == '"' {
			b.WriteString(`""`)
		} else {
			b.WriteByte(c)
		}
	}
	b.WriteByte('"')
	return b.String()
}

func ident(name string) string { return "g_" + name }

// a checked operation hoisted in front of the statement that contains it
type pre struct{ name, expr string }

type ectx struct {
	pres []pre
}

func (g *gen) useOracle(name string, args []typ, res typ) {
	g.oracles[name] = oracle{name, args, res}
}

func (g *gen) pkgOf(x ast.Expr) (string, bool) {
	id, ok := x.(*ast.Ident)
	if !ok {
		return "", false
	}
	if _, shadow := g.env[id.Name]; shadow {
		return "", false
	}
	p, ok := g.imports[id.Name]
	return p, ok
}

// expr returns the Gallina text and the type of a Go expression
func (g *gen) expr(c *ectx, e ast.Expr) (string, typ) {
	switch x := e.(type) {
	case *ast.ParenExpr:
		return g.expr(c, x.X)
	case *ast.BasicLit:
		switch x.Kind {
		case token.STRING:
			s, err := strconv.Unquote(x.Value)
			if err != nil {
				g.fail(x, "string literal %s", x.Value)
			}
			return coqString(g, x, s), tString
		case token.INT:
			v, err := strconv.ParseInt(x.Value, 0, 64)
			if err != nil {
				g.fail(x, "integer literal %s", x.Value)
			}
			return fmt.Sprintf("%d%%Z", v), tInt
		}
		g.fail(x, "literal %s is outside the subset", x.Value)
	case *ast.Ident:
		if x.Name == "nil" {
			return "None", tNil
		}
		if x.Name == "true" || x.Name == "false" {
			if _, ok := g.env[x.Name]; !ok {
				return x.Name, tBool
			}
		}
		t, ok := g.env[x.Name]
		if !ok {
			g.fail(x, "identifier %s is neither a parameter nor a local variable", x.Name)
		}
		return ident(x.Name), t
	case *ast.UnaryExpr:
		switch x.Op {
		case token.SUB:
			if lit, ok := x.X.(*ast.BasicLit); ok && lit.Kind == token.INT {
				v, err := strconv.ParseInt(lit.Value, 0, 64)
				if err != nil {
					g.fail(x, "integer literal %s", lit.Value)
				}
				return fmt.Sprintf("(-%d)%%Z", v), tInt
			}
			g.fail(x, "unary minus of a non-literal is outside the subset")
		case token.NOT:
			s, t := g.expr(c, x.X)
			if t != tBool {
				g.fail(x, "! of a %v", t)
			}
			return "(negb " + s + ")", tBool
		}
		g.fail(x, "unary operator %s is outside the subset", x.Op)
	case *ast.BinaryExpr:
		return g.binary(c, x)
	case *ast.SliceExpr:
		if x.Slice3 {
			g.fail(x, "three-index slice is outside the subset")
		}
		s, t := g.expr(c, x.X)
		if t != tString {
			g.fail(x, "slice expression of a %v (only strings)", t)
		}
		lo, hi := "0%Z", "(GoStr.len "+s+")"
		if x.Low != nil {
			var lt typ
			lo, lt = g.expr(c, x.Low)
			if lt != tInt {
				g.fail(x.Low, "slice bound of type %v", lt)
			}
		}
		if x.High != nil {
			var ht typ
			hi, ht = g.expr(c, x.High)
			if ht != tInt {
				g.fail(x.High, "slice bound of type %v", ht)
			}
		}
		g.tmp++
		name := fmt.Sprintf("t%d", g.tmp)
		c.pres = append(c.pres, pre{name, fmt.Sprintf("GoStr.slice %s %s %s", s, lo, hi)})
		return name, tString
	case *ast.CallExpr:
		return g.call(c, x)
	}
	g.fail(e, "expression of kind %T is outside the subset", e)
	return "", tNil
}

func (g *gen) binary(c *ectx, x *ast.BinaryExpr) (string, typ) {
	switch x.Op {
	case token.LAND, token.LOR:
		a, ta := g.expr(c, x.X)
		n := len(c.pres)
		b, tb := g.expr(c, x.Y)
		if len(c.pres) != n {
			g.fail(x.Y, "a slice expression on the right of %s (evaluated conditionally) is outside the subset", x.Op)
		}
		if ta != tBool || tb != tBool {
			g.fail(x, "%s of %v and %v", x.Op, ta, tb)
		}
		if x.Op == token.LAND {
			return "(andb " + a + " " + b + ")", tBool
		}
		return "(orb " + a + " " + b + ")", tBool
	case token.ADD:
		// a chain of concatenations is associated to the right, like the pieces of a Sprintf format
		var operands []ast.Expr
		var flatten func(e ast.Expr)
		flatten = func(e ast.Expr) {
			if p, ok := e.(*ast.ParenExpr); ok {
				flatten(p.X)
				return
			}
			if b, ok := e.(*ast.BinaryExpr); ok && b.Op == token.ADD {
				flatten(b.X)
				flatten(b.Y)
				return
			}
			operands = append(operands, e)
		}
		flatten(x)
		var pieces []string
		for _, op := range operands {
			s, t := g.expr(c, op)
			if t != tString {
				g.fail(op, "+ with a %v operand (only string concatenation)", t)
			}
			pieces = append(pieces, s)
		}
		s := pieces[len(pieces)-1]
		for i := len(pieces) - 2; i >= 0; i-- {
			s = "(String.append " + pieces[i] + " " + s + ")"
		}
		return s, tString
	case token.EQL, token.NEQ, token.LSS, token.LEQ, token.GTR, token.GEQ:
		a, ta := g.expr(c, x.X)
		b, tb := g.expr(c, x.Y)
		var s string
		switch {
		case ta == tSlice && tb == tNil && (x.Op == token.EQL || x.Op == token.NEQ):
			s = "(GoStr.sl_is_nil " + a + ")"
		case ta == tNil && tb == tSlice && (x.Op == token.EQL || x.Op == token.NEQ):
			s = "(GoStr.sl_is_nil " + b + ")"
		case ta == tString && tb == tString && (x.Op == token.EQL || x.Op == token.NEQ):
			s = "(String.eqb " + a + " " + b + ")"
		case ta == tBool && tb == tBool && (x.Op == token.EQL || x.Op == token.NEQ):
			s = "(Bool.eqb " + a + " " + b + ")"
		case ta == tInt && tb == tInt:
			op := map[token.Token]string{token.EQL: "Z.eqb", token.NEQ: "Z.eqb", token.LSS: "Z.ltb", token.LEQ: "Z.leb", token.GTR: "Z.gtb", token.GEQ: "Z.geb"}[x.Op]
			s = "(" + op + " " + a + " " + b + ")"
		default:
			g.fail(x, "comparison %s of %v and %v is outside the subset", x.Op, ta, tb)
		}
		if x.Op == token.NEQ {
			s = "(negb " + s + ")"
		}
		return s, tBool
	}
	g.fail(x, "binary operator %s is outside the subset", x.Op)
	return "", tNil
}

func (g *gen) args(c *ectx, call *ast.CallExpr) ([]string, []typ) {
	if call.Ellipsis != token.NoPos {
		g.fail(call, "variadic call with ... is outside the subset")
	}
	var ss []string
	var ts []typ
	for _, a := range call.Args {
		s, t := g.expr(c, a)
		ss = append(ss, s)
		ts = append(ts, t)
	}
	return ss, ts
}

func (g *gen) call(c *ectx, x *ast.CallExpr) (string, typ) {
	switch f := x.Fun.(type) {
	case *ast.Ident:
		if _, local := g.env[f.Name]; local {
			g.fail(x, "call of the variable %s", f.Name)
		}
		if f.Name == "len" {
			ss, ts := g.args(c, x)
			if len(ss) != 1 {
				g.fail(x, "len with %d arguments", len(ss))
			}
			switch ts[0] {
			case tString:
				return "(GoStr.len " + ss[0] + ")", tInt
			case tSlice:
				return "(GoStr.sl_len " + ss[0] + ")", tInt
			}
			g.fail(x, "len of a %v", ts[0])
		}
		if f.Name == g.self {
			g.fail(x, "%s calls itself outside a return statement", g.self)
		}
		decl, ok := g.pkgFns[f.Name]
		if !ok {
			g.fail(x, "call of %s: not a function of the package", f.Name)
		}
		if decl.Recv != nil || decl.Type.Results == nil || len(decl.Type.Results.List) != 1 || len(decl.Type.Results.List[0].Names) > 1 {
			g.fail(x, "call of %s: only functions with one result", f.Name)
		}
		var pts []typ
		for _, fld := range decl.Type.Params.List {
			if _, variadic := fld.Type.(*ast.Ellipsis); variadic {
				g.fail(x, "call of the variadic function %s", f.Name)
			}
			n := len(fld.Names)
			if n == 0 {
				n = 1
			}
			for i := 0; i < n; i++ {
				pts = append(pts, g.goType(fld.Type))
			}
		}
		rt := g.goType(decl.Type.Results.List[0].Type)
		ss, ts := g.args(c, x)
		if len(ss) != len(pts) {
			g.fail(x, "call of %s with %d arguments, declared with %d", f.Name, len(ss), len(pts))
		}
		for i := range ts {
			if ts[i] != pts[i] {
				g.fail(x.Args[i], "argument %d of %s: %v where %v is declared", i+1, f.Name, ts[i], pts[i])
			}
		}
		name := "fn_" + f.Name
		g.useOracle(name, pts, rt)
		return "(" + name + " " + strings.Join(ss, " ") + ")", rt
	case *ast.SelectorExpr:
		pkg, ok := g.pkgOf(f.X)
		if !ok {
			g.fail(x, "call through a selector that is not an imported package")
		}
		switch {
		case pkg == "github.com/spf13/viper":
			rt, ok := viperFns[f.Sel.Name]
			if !ok {
				g.fail(x, "viper.%s is outside the subset", f.Sel.Name)
			}
			ss, ts := g.args(c, x)
			if len(ss) != 1 || ts[0] != tString {
				g.fail(x, "viper.%s: one string argument expected", f.Sel.Name)
			}
			name := "viper_" + f.Sel.Name
			g.useOracle(name, []typ{tString}, rt)
			return "(" + name + " " + ss[0] + ")", rt
		case pkg == "strings" && f.Sel.Name == "LastIndex":
			ss, ts := g.args(c, x)
			if len(ss) != 2 || ts[0] != tString || ts[1] != tString {
				g.fail(x, "strings.LastIndex: two string arguments expected")
			}
			return "(GoStr.last_index " + ss[0] + " " + ss[1] + ")", tInt
		case pkg == "fmt" && f.Sel.Name == "Sprintf":
			return g.sprintf(c, x)
		}
		g.fail(x, "call of %s.%s is outside the subset", pkg, f.Sel.Name)
	}
	g.fail(x, "call of this form is outside the subset")
	return "", tNil
}

// fmt.Sprintf with a literal format made of text, %s / %v (string arguments) and %%
func (g *gen) sprintf(c *ectx, x *ast.CallExpr) (string, typ) {
	if len(x.Args) == 0 || x.Ellipsis != token.NoPos {
		g.fail(x, "fmt.Sprintf: literal format expected")
	}
	lit, ok := x.Args[0].(*ast.BasicLit)
	if !ok || lit.Kind != token.STRING {
		g.fail(x, "fmt.Sprintf: the format must be a string literal")
	}
	format, err := strconv.Unquote(lit.Value)
	if err != nil {
		g.fail(x, "fmt.Sprintf: format %s", lit.Value)
	}
	var pieces []string
	var text strings.Builder
	flush := func() {
		if text.Len() > 0 {
			pieces = append(pieces, coqString(g, lit, text.String()))
			text.Reset()
		}
	}
	next := 1
	for i := 0; i < len(format); i++ {
		if format[i] != '%' {
			text.WriteByte(format[i])
			continue
		}
		i++
		if i >= len(format) {
			g.fail(lit, "fmt.Sprintf: format ends in %%")
		}
		switch format[i] {
		case '%':
			text.WriteByte('%')
		case 's', 'v':
			if next >= len(x.Args) {
				g.fail(x, "fmt.Sprintf: more verbs than arguments")
			}
			s, t := g.expr(c, x.Args[next])
			if t != tString {
				g.fail(x.Args[next], "fmt.Sprintf: %%%c of a %v (only strings)", format[i], t)
			}
			next++
			flush()
			pieces = append(pieces, s)
		default:
			g.fail(lit, "fmt.Sprintf: verb %%%c is outside the subset", format[i])
		}
	}
	flush()
	if next != len(x.Args) {
		g.fail(x, "fmt.Sprintf: more arguments than verbs")
	}
	if len(pieces) == 0 {
		return `""`, tString
	}
	s := pieces[len(pieces)-1]
	for i := len(pieces) - 2; i >= 0; i-- {
		s = "(String.append " + pieces[i] + " " + s + ")"
	}
	return s, tString
}

type out struct {
	b      bytes.Buffer
	indent int
}

func (o *out) line(format string, a ...any) {
	o.b.WriteString(strings.Repeat("  ", o.indent))
	fmt.Fprintf(&o.b, format, a...)
	o.b.WriteByte('\n')
}

// wrap opens the matches of the hoisted checked operations; the caller emits the statement and
// then calls the returned function to close them
func (g *gen) wrap(o *out, c *ectx) func() {
	n := len(c.pres)
	for _, p := range c.pres {
		o.line("match %s with", p.expr)
		o.line("| None => GoStr.Panic")
		o.line("| Some %s =>", p.name)
		o.indent++
	}
	return func() {
		for i := 0; i < n; i++ {
			o.indent--
			o.line("end")
		}
	}
}

func (g *gen) define(n ast.Node, name string, t typ) {
	if name == "_" {
		g.fail(n, "the blank identifier is outside the subset")
	}
	if g.declared[name] {
		g.fail(n, "%s is declared twice (shadowing and reuse of a name are outside the subset)", name)
	}
	g.declared[name] = true
	if _, ok := g.imports[name]; ok {
		g.fail(n, "%s shadows an imported package", name)
	}
	if _, ok := g.pkgFns[name]; ok || name == "len" || name == "nil" || name == "true" || name == "false" {
		g.fail(n, "%s shadows a function or predeclared name", name)
	}
	g.env[name] = t
}

// shortVar translates x := e and emits the let; returns the closer of hoisted matches
func (g *gen) shortVar(o *out, s *ast.AssignStmt) func() {
	if s.Tok != token.DEFINE || len(s.Lhs) != 1 || len(s.Rhs) != 1 {
		g.fail(s, "only single definitions x := e (no assignment, no tuple)")
	}
	id, ok := s.Lhs[0].(*ast.Ident)
	if !ok {
		g.fail(s, "left-hand side is not an identifier")
	}
	c := &ectx{}
	e, t := g.expr(c, s.Rhs[0])
	if t == tNil {
		g.fail(s, "definition from nil")
	}
	g.define(s, id.Name, t)
	closer := g.wrap(o, c)
	o.line("let %s := %s in", ident(id.Name), e)
	return closer
}

// block translates a statement list every path of which ends in a return
func (g *gen) block(o *out, stmts []ast.Stmt, at ast.Node) {
	if len(stmts) == 0 {
		g.fail(at, "a path through %s does not end in a return", g.self)
	}
	switch s := stmts[0].(type) {
	case *ast.ReturnStmt:
		if len(stmts) > 1 {
			g.fail(stmts[1], "statement after a return")
		}
		if len(s.Results) != 1 {
			g.fail(s, "return with %d values", len(s.Results))
		}
		c := &ectx{}
		if call, ok := s.Results[0].(*ast.CallExpr); ok {
			if f, ok := call.Fun.(*ast.Ident); ok && f.Name == g.self {
				if _, local := g.env[f.Name]; local {
					g.fail(call, "call of the variable %s", f.Name)
				}
				ss, ts := g.args(c, call)
				if len(ss) != g.nparams {
					g.fail(call, "%s called with %d arguments", g.self, len(ss))
				}
				for i, t := range ts {
					if t != tString {
						g.fail(call.Args[i], "argument of type %v", t)
					}
				}
				closer := g.wrap(o, c)
				o.line("%s_fuel%s fuel' %s", g.self, g.oracleArgsPlaceholder(), strings.Join(ss, " "))
				closer()
				return
			}
		}
		e, t := g.expr(c, s.Results[0])
		if t == tNil && g.res == tSlice {
			t = tSlice
		}
		if t != g.res {
			g.fail(s, "return of a %v where the result is a %v", t, g.res)
		}
		closer := g.wrap(o, c)
		o.line("GoStr.Ok %s", e)
		closer()
	case *ast.AssignStmt:
		closer := g.shortVar(o, s)
		g.block(o, stmts[1:], s)
		closer()
	case *ast.IfStmt:
		saved := g.snapshot()
		var closers []func()
		if s.Init != nil {
			as, ok := s.Init.(*ast.AssignStmt)
			if !ok {
				g.fail(s.Init, "if-initialiser of this form is outside the subset")
			}
			closers = append(closers, g.shortVar(o, as))
		}
		c := &ectx{}
		cond, t := g.expr(c, s.Cond)
		if t != tBool {
			g.fail(s.Cond, "condition of type %v", t)
		}
		closers = append(closers, g.wrap(o, c))
		o.line("if %s then (", cond)
		o.indent++
		inner := g.snapshot()
		g.block(o, s.Body.List, s.Body)
		g.env = inner
		if s.Else != nil {
			g.env = saved
		}
		o.indent--
		o.line(") else (")
		o.indent++
		switch el := s.Else.(type) {
		case nil:
			// the variables of the initialiser and of the body are not in scope after the if statement
			// (their names stay taken: see define)
			g.env = saved
			g.block(o, stmts[1:], s)
		case *ast.BlockStmt:
			if len(stmts) > 1 {
				g.fail(stmts[1], "statement after an if/else whose branches all return")
			}
			g.block(o, el.List, el)
		case *ast.IfStmt:
			if len(stmts) > 1 {
				g.fail(stmts[1], "statement after an if/else-if chain")
			}
			g.block(o, []ast.Stmt{el}, el)
		default:
			g.fail(s, "else of this form is outside the subset")
		}
		o.indent--
		o.line(")")
		for i := len(closers) - 1; i >= 0; i-- {
			closers[i]()
		}
	default:
		g.fail(stmts[0], "statement of kind %T is outside the subset", stmts[0])
	}
}

func (g *gen) snapshot() map[string]typ {
	m := make(map[string]typ, len(g.env))
	for k, v := range g.env {
		m[k] = v
	}
	return m
}

const oraclePlaceholder = "\x01ORACLES\x01"

func (g *gen) oracleArgsPlaceholder() string { return oraclePlaceholder }

func (g *gen) function(t Target) (text string, err error) {
	defer func() {
		if r := recover(); r != nil {
			te, ok := r.(transErr)
			if !ok {
				panic(r)
			}
			err = fmt.Errorf("%s", te.msg)
		}
	}()
	fn := g.fn
	if fn.Recv != nil {
		g.fail(fn, "%s is a method", t.Func)
	}
	if fn.Type.TypeParams != nil {
		g.fail(fn, "%s has type parameters", t.Func)
	}
	if fn.Type.Results == nil || len(fn.Type.Results.List) != 1 || len(fn.Type.Results.List[0].Names) != 0 {
		g.fail(fn, "%s: exactly one unnamed result expected", t.Func)
	}
	g.res = g.goType(fn.Type.Results.List[0].Type)
	g.self = fn.Name.Name
	g.env = map[string]typ{}
	g.oracles = map[string]oracle{}
	g.declared = map[string]bool{}
	var params []string
	for _, fld := range fn.Type.Params.List {
		if g.goType(fld.Type) != tString {
			g.fail(fld, "%s: parameter of type %s (only strings)", t.Func, typeText(fld.Type))
		}
		if len(fld.Names) == 0 {
			g.fail(fld, "%s: unnamed parameter", t.Func)
		}
		for _, n := range fld.Names {
			g.define(n, n.Name, tString)
			params = append(params, n.Name)
		}
	}
	g.nparams = len(params)
	if fn.Body == nil {
		g.fail(fn, "%s has no body", t.Func)
	}
	o := &out{indent: 2}
	g.block(o, fn.Body.List, fn.Body)

	var names []string
	for n := range g.oracles {
		names = append(names, n)
	}
	sort.Strings(names)
	var hdr bytes.Buffer
	fmt.Fprintf(&hdr, "Fixpoint %s_fuel", t.Name)
	oargs := ""
	for _, n := range names {
		fmt.Fprintf(&hdr, " (%s : %s)", n, g.oracles[n].coqType())
		oargs += " " + n
	}
	hdr.WriteString(" (fuel : nat)")
	for _, p := range params {
		fmt.Fprintf(&hdr, " (%s : string)", ident(p))
	}
	fmt.Fprintf(&hdr, " {struct fuel} : GoStr.result %s :=\n", parenType(g.res))
	hdr.WriteString("  match fuel with\n  | O => GoStr.OutOfFuel\n  | S fuel' =>\n")
	body := strings.ReplaceAll(o.b.String(), g.self+"_fuel"+oraclePlaceholder, t.Name+"_fuel"+oargs)
	return hdr.String() + body + "  end.\n", nil
}

func parenType(t typ) string {
	if t == tSlice {
		return "(" + t.coq() + ")"
	}
	return t.coq()
}

func main() {
	repo := flag.String("repo", "/repo", "repository root")
	cfgPath := flag.String("config", "strtrans/targets.json", "targets")
	outDir := flag.String("outdir", "coq/Gen", "output directory")
	statusPath := flag.String("status", "build/strtrans_status.json", "status file")
	flag.Parse()

	raw, err := os.ReadFile(*cfgPath)
	if err != nil {
		fmt.Fprintln(os.Stderr, "strtrans:", err)
		os.Exit(2)
	}
	var cfg Config
	if err := json.Unmarshal(raw, &cfg); err != nil {
		fmt.Fprintln(os.Stderr, "strtrans: targets:", err)
		os.Exit(2)
	}

	status := map[string]string{}
	var body bytes.Buffer
	failed := false
	type dirInfo struct {
		fset  *token.FileSet
		files map[string]*ast.File
		fns   map[string]*ast.FuncDecl
		err   error
	}
	dirs := map[string]*dirInfo{}
	loadDir := func(dir string) *dirInfo {
		if d, ok := dirs[dir]; ok {
			return d
		}
		d := &dirInfo{fset: token.NewFileSet(), files: map[string]*ast.File{}, fns: map[string]*ast.FuncDecl{}}
		dirs[dir] = d
		entries, err := os.ReadDir(dir)
		if err != nil {
			d.err = err
			return d
		}
		for _, e := range entries {
			n := e.Name()
			if e.IsDir() || !strings.HasSuffix(n, ".go") || strings.HasSuffix(n, "_test.go") {
				continue
			}
			f, err := parser.ParseFile(d.fset, filepath.Join(dir, n), nil, parser.SkipObjectResolution)
			if err != nil {
				d.err = err
				return d
			}
			if strings.HasSuffix(f.Name.Name, "_test") {
				continue
			}
			d.files[n] = f
			for _, decl := range f.Decls {
				if fd, ok := decl.(*ast.FuncDecl); ok && fd.Recv == nil {
					d.fns[fd.Name.Name] = fd
				}
			}
		}
		return d
	}

	for _, t := range cfg.Targets {
		path := filepath.Join(*repo, t.File)
		d := loadDir(filepath.Dir(path))
		msg := ""
		var text string
		switch {
		case d.err != nil:
			msg = d.err.Error()
		default:
			f, ok := d.files[filepath.Base(path)]
			if !ok {
				msg = "file " + t.File + " not found"
				break
			}
			var fn *ast.FuncDecl
			for _, decl := range f.Decls {
				if fd, ok := decl.(*ast.FuncDecl); ok && fd.Recv == nil && fd.Name.Name == t.Func {
					fn = fd
				}
			}
			if fn == nil {
				msg = "function " + t.Func + " not found in " + t.File
				break
			}
			imports := map[string]string{}
			for _, im := range f.Imports {
				p, _ := strconv.Unquote(im.Path.Value)
				name := p[strings.LastIndex(p, "/")+1:]
				if im.Name != nil {
					name = im.Name.Name
				}
				imports[name] = p
			}
			g := &gen{fset: d.fset, imports: imports, pkgFns: d.fns, fn: fn}
			var err error
			text, err = g.function(t)
			if err != nil {
				msg = err.Error()
			}
		}
		if msg != "" {
			failed = true
			status[t.Name] = "failed: " + msg
			fmt.Fprintf(os.Stderr, "strtrans: %s (%s): %s\n", t.Name, t.File, msg)
			fmt.Fprintf(&body, "(* %s: NOT TRANSLATED: %s *)\n\n", t.Name, strings.ReplaceAll(msg, "*)", "* )"))
			continue
		}
		status[t.Name] = "ok"
		fmt.Fprintf(&body, "(* %s: %s, func %s *)\n%s\n", t.Name, t.File, t.Func, text)
	}

	var file bytes.Buffer
	file.WriteString("(* Generated by strtrans from the repository's current source on every run.  Do not edit. *)\n")
	file.WriteString("From Coq Require Import String Ascii ZArith Bool List.\n")
	file.WriteString("From Verif Require Import Lib.GoStr.\n")
	file.WriteString("Local Open Scope string_scope.\n\n")
	file.Write(body.Bytes())

	outPath := filepath.Join(*outDir, cfg.Out)
	old, _ := os.ReadFile(outPath)
	if !bytes.Equal(old, file.Bytes()) {
		if err := os.WriteFile(outPath, file.Bytes(), 0o644); err != nil {
			fmt.Fprintln(os.Stderr, "strtrans:", err)
			os.Exit(2)
		}
	}
	if failed {
		status["_all"] = "failed"
	} else {
		status["_all"] = "ok"
	}
	sj, _ := json.MarshalIndent(status, "", " ")
	_ = os.WriteFile(*statusPath, append(sj, '\n'), 0o644)
	if failed {
		os.Exit(1)
	}
	fmt.Printf("strtrans: %d functions transcribed into %s\n", len(cfg.Targets), outPath)
}
