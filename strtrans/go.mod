module strtrans

go 1.23
